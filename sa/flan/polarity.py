"""E3-lite: decision-table evaluation of a function over the finite set of orderings of the values it compares.

A function whose result depends on its inputs only through comparisons is abstracted as follows: every comparison
`a OP b` met on a path is canonicalised to the *sign* of the affine difference d = a - b (so `a > b`, `!(b >= a)`,
`b < a`, `a - 1 >= b` … all talk about the same d); every other boolean condition (is_some, eq on enums, flags) is a
boolean atom.  A *scenario* assigns a sign to each named difference and a truth value to each named atom; the walker
follows the CFG deterministically under the scenario (forking on conditions the scenario does not name — those must
not change the outcome) and reports the set of outcomes (returned constant / returned atom / calls made).  Rules then
compare the outcome table with the expected one.  Nothing is executed: the walk is over the MIR CFG with abstract
truth values only."""
import itertools
import re

from .model import X, show, walk
from .cfg import Flow, facts_of, strip_ref


def strip(e):
    """remove refs, derefs and value-preserving casts"""
    while True:
        if e[0] in ("ref", "deref"):
            e = e[1]
        elif e[0] == "cast" and e[3] in ("IntToInt", "PtrToPtr", "Transmute") and _widening(e):
            e = e[2]
        elif e[0] == "call" and len(e[2]) == 1 and re.search(r"(Deref::deref|Clone::clone|AsRef::as_ref|Borrow::borrow)$", e[1].replace(">", "")):
            e = e[2][0]
        else:
            return e


def _widening(e):
    # we do not know the source type here; treat casts to >=64-bit or usize/u64/u128/i64/i128/f64 as value preserving
    return e[1] in ("u64", "usize", "u128", "i64", "i128", "isize", "f64", "u32", "i32")


def affine(e):
    """expression -> ({leaf: coeff}, const) ; leaves are rendered sub-expressions"""
    e = strip(e)
    k = e[0]
    if k == "const" and isinstance(e[2], int) and not isinstance(e[2], bool):
        return {}, e[2]
    if k == "bin":
        op = e[1].replace("WithOverflow", "").replace("Unchecked", "")
        if op in ("Add", "Sub"):
            a, b = affine(e[2]), affine(e[3])
            s = 1 if op == "Add" else -1
            d = dict(a[0])
            for kk, v in b[0].items():
                d[kk] = d.get(kk, 0) + s * v
            return {kk: v for kk, v in d.items() if v != 0}, a[1] + s * b[1]
        if op == "Shl":
            b = affine(e[3])
            if not b[0] and isinstance(b[1], int) and 0 <= b[1] < 64:
                a = affine(e[2])
                m = 1 << b[1]
                return {kk: v * m for kk, v in a[0].items()}, a[1] * m
        if op == "Mul":
            a, b = affine(e[2]), affine(e[3])
            if not a[0]:
                return {kk: v * a[1] for kk, v in b[0].items() if v * a[1] != 0}, a[1] * b[1]
            if not b[0]:
                return {kk: v * b[1] for kk, v in a[0].items() if v * b[1] != 0}, a[1] * b[1]
    if k == "proj" and len(e) > 2 and e[2] in ("@Some.0",) and e[1][0] == "call" and len(e[1][2]) == 2:
        # the payload of a successful checked operation is the plain result: x.checked_sub(y)@Some.0 == x - y
        m = re.search(r"num::<impl \w+>::checked_(sub|add)$", e[1][1])
        if m:
            a, b = affine(e[1][2][0]), affine(e[1][2][1])
            s = 1 if m.group(1) == "add" else -1
            d = dict(a[0])
            for kk, v in b[0].items():
                d[kk] = d.get(kk, 0) + s * v
            return {kk: v for kk, v in d.items() if v != 0}, a[1] + s * b[1]
    return {show(e, 300): 1}, 0


def diff_key(a, b):
    """canonical key of the difference a - b and the orientation (+1 if key == a-b, -1 if key == b-a)"""
    fa, ca = affine(a)
    fb, cb = affine(b)
    d = dict(fa)
    for k, v in fb.items():
        d[k] = d.get(k, 0) - v
    d = {k: v for k, v in d.items() if v != 0}
    c = ca - cb
    items = sorted(d.items())
    if not items:
        return ("const", c), 1
    sign = 1 if items[0][1] > 0 else -1
    items = tuple((k, v * sign) for k, v in items)
    return (items, c * sign), sign


def show_key(key):
    if key[0] == "const":
        return str(key[1])
    items, c = key
    s = " ".join(("%+d*" % v if abs(v) != 1 else ("+" if v > 0 else "-")) + k for k, v in items)
    if c:
        s += " %+d" % c
    return s.lstrip("+")


class Cond:
    """canonical condition: ('sign', key, rel) with rel in lt|le|eq  meaning  key rel 0 ;  or ('bool', text)"""


def canon(fact):
    """(atom, truth) -> (ckey, predicate over scenario value) ; ckey identifies what the scenario must provide.
    returns (kind, key, fn) where fn(value) -> bool ; for kind 'sign' value in {-1,0,1}; for 'bool' value in {False,True}"""
    (a, t) = fact
    k = a[0]
    if k in ("lt", "le", "eq"):
        key, orient = diff_key(a[1], a[2])
        if key[0] == "const":
            c = key[1]
            val = {"lt": c < 0, "le": c <= 0, "eq": c == 0}[k]
            return ("fixed", None, lambda v, val=val, t=t: val == t)
        # a - b = orient * key  ;  key's sign s  => sign(a-b) = orient*s
        def fn(s, k=k, orient=orient, t=t):
            d = orient * s
            r = {"lt": d < 0, "le": d <= 0, "eq": d == 0}[k]
            return r == t
        return ("sign", key, fn)
    if k == "variant_in":
        return ("fixed", None, lambda v: True)
    if k == "variant":
        key = "%s is %s" % (show(strip(a[1]), 300), a[2])
        return ("bool", key, lambda v, t=t: v == t)
    key = show(strip(a[1]), 300)
    return ("bool", key, lambda v, t=t: v == t)


class Outcome:
    def __init__(self, ret, calls, path):
        self.ret = ret      # True | False | ('atom', text) | ('expr', text) | None (diverges)
        self.calls = calls  # tuple of callee names on the path (filtered)
        self.path = path

    def __repr__(self):
        return "<%s calls=%s>" % (self.ret, list(self.calls))


class Table:
    """Decision table of one function body."""

    def __init__(self, func, name_sign=None, name_bool=None, call_filter=None, max_paths=20000, name_enum=None):
        """name_sign: {label: regex on show_key(key)} ; name_bool: {label: regex on bool key text} ;
        name_enum: {label: (regex on the tested subject, (variant names…))} - an enum-valued slot: `subject is V` (match arm) and
        `subject == Enum::V` / `!=` (comparison) are the same condition; the scenario gives the slot one of the variant names."""
        self.func = func
        self.body = func.body
        self.flow = Flow(self.body)
        self.x = self.flow.x
        self.name_sign = {k: re.compile(v) for k, v in (name_sign or {}).items()}
        self.name_bool = {k: re.compile(v) for k, v in (name_bool or {}).items()}
        self.call_filter = re.compile(call_filter) if call_filter else None
        self.max_paths = max_paths
        self.name_enum = {k: (re.compile(v[0]), tuple(v[1])) for k, v in (name_enum or {}).items()}
        self.seen_enum = {}
        self.seen_sign = {}
        self.seen_bool = {}
        self._collect()

    def _enum_of(self, fact):
        """(label, predicate over the slot's variant name) when the fact tests a declared enum slot, else None"""
        if not self.name_enum:
            return None
        (a, t) = fact
        for lab, (rx_, variants) in self.name_enum.items():
            if a[0] == "variant" and a[2] in variants and rx_.search(show(strip(a[1]), 300)):
                return lab, (lambda v, want=a[2], t=t: (v == want) == t)
            if a[0] == "eq":
                for x_, y_ in ((a[1], a[2]), (a[2], a[1])):
                    m = re.search(r"::(\w+)(\{\})?$", show(strip(y_), 300))
                    if m and m.group(1) in variants and rx_.search(show(strip(x_), 300)):
                        return lab, (lambda v, want=m.group(1), t=t: (v == want) == t)
        return None

    def canon(self, fact):
        e = self._enum_of(fact)
        if e is not None:
            return ("enum", e[0], e[1])
        return canon(fact)

    def _label(self, kind, key):
        if kind == "sign":
            txt = show_key(key)
            for lab, r in self.name_sign.items():
                if r.search(txt):
                    return lab
            # a compared value kept in a named local (`let toi = file.toi; if toi == TOI_FDT`): label it by its definition
            nd = self._named_defs()
            items, c = key
            if any(n in nd for n, _ in items):
                txt = show_key((tuple((nd.get(n, n), v) for n, v in items), c))
                for lab, r in self.name_sign.items():
                    if r.search(txt):
                        return lab
        elif kind == "bool":
            for lab, r in self.name_bool.items():
                if r.search(key):
                    return lab
            # a condition kept in a named local (`let bypassed = self.endpoint_bypass.contains_key(..); bypassed || ..`): label it by its definition
            m = re.match(r"^(\w+(?:~\d+)?)( is \w+)?$", key)
            if m and m.group(1) in self._named_defs():
                txt = self._named_defs()[m.group(1)] + (m.group(2) or "")
                for lab, r in self.name_bool.items():
                    if r.search(txt):
                        return lab
        return None

    def _named_defs(self):
        """named non-parameter locals with exactly one whole definition -> text of that definition (substituted)"""
        if getattr(self, "_nd", None) is None:
            from .cfg import Slicer
            sl = Slicer(self.body)
            params = set(self.body.names.get(l) for l in range(1, self.body.argc + 1))
            self._nd = {}
            for name, defs in sl.var_defs().items():
                whole = [d for d in defs if d[0] == ""]
                if name not in params and len(defs) == 1 and len(whole) == 1:
                    self._nd[name] = show(strip(sl.expand(whole[0][1])), 300)
        return self._nd

    def _collect(self):
        """all canonical conditions in the body, labelled"""
        for blk in self.body.blocks:
            if blk.cleanup or blk.term.k != "switch":
                continue
            for k in range(len(blk.term.targets) + 1):
                for f in self.flow.edge_facts(("e", blk.i, k)):
                    kind, key, fn = self.canon(f)
                    if kind == "sign":
                        self.seen_sign[key] = self._label(kind, key)
                    elif kind == "bool":
                        self.seen_bool[key] = self._label(kind, key)
                    elif kind == "enum":
                        self.seen_enum[key] = True
        # comparisons whose result is kept in a local (`let first = id.sbn == 0 && id.esi == 0;`, or the result of an inlined helper)
        for blk in self.body.blocks:
            if blk.cleanup:
                continue
            for s_ in blk.stmts:
                if s_.k == "assign" and not s_.lhs[1] and s_.rv.k == "bin" and s_.rv.j.get("op") in ("Eq", "Ne", "Lt", "Le", "Gt", "Ge"):
                    for f in facts_of(self.x.rvalue(s_.rv, self.x.depth), True):
                        kind, key, fn = self.canon(f)
                        if kind == "sign":
                            self.seen_sign.setdefault(key, self._label(kind, key))
                        elif kind == "bool":
                            self.seen_bool.setdefault(key, self._label(kind, key))
                        elif kind == "enum":
                            self.seen_enum[key] = True
        # comparisons made by a trait call whose result is kept in a local (`last_interval > *interval` on Durations in an inlined helper)
        for blk in self.body.blocks:
            if blk.cleanup or blk.term.k != "call" or blk.term.dest is None or blk.term.dest[1] or blk.term.dest[0] == 0:
                continue
            if re.search(r"Partial(Ord|Eq)(<.*>)?>?::(lt|le|gt|ge|eq|ne)$", blk.term.callee_path() or ""):
                for f in facts_of(self.x.call_expr(blk.i, blk.term, self.x.depth), True):
                    kind, key, fn = self.canon(f)
                    if kind == "sign":
                        self.seen_sign.setdefault(key, self._label(kind, key))
                    elif kind == "bool":
                        self.seen_bool.setdefault(key, self._label(kind, key))
                    elif kind == "enum":
                        self.seen_enum[key] = True
        # returned comparison expressions
        for blk in self.body.blocks:
            if blk.cleanup:
                continue
            for e in self._ret_exprs(blk):
                for f in facts_of(e, True):
                    kind, key, fn = self.canon(f)
                    if kind == "sign":
                        self.seen_sign[key] = self._label(kind, key)
                    elif kind == "bool":
                        self.seen_bool[key] = self._label(kind, key)
                    elif kind == "enum":
                        self.seen_enum[key] = True

    def _ret_exprs(self, blk):
        out = []
        for s in blk.stmts:
            if s.k == "assign" and s.lhs == (0, ()):
                out.append(self.x.rvalue(s.rv, self.x.depth))
        t = blk.term
        if t.k == "call" and t.dest == (0, ()):
            out.append(self.x.call_expr(blk.i, t, self.x.depth))
        return out

    def labels_found(self):
        return set(v for v in list(self.seen_sign.values()) + list(self.seen_bool.values()) if v) | set(self.seen_enum)

    def scenarios(self):
        sign_labels = sorted(set(v for v in self.seen_sign.values() if v))
        bool_labels = sorted(set(v for v in self.seen_bool.values() if v))
        enum_labels = sorted(self.seen_enum)
        for sv in itertools.product((-1, 0, 1), repeat=len(sign_labels)):
            for bv in itertools.product((False, True), repeat=len(bool_labels)):
                for ev in itertools.product(*[self.name_enum[l][1] for l in enum_labels]):
                    sc = dict(zip(sign_labels, sv))
                    sc.update(dict(zip(bool_labels, bv)))
                    sc.update(dict(zip(enum_labels, ev)))
                    yield sc

    def _edge_ok(self, node, sc):
        """True/False if the scenario decides the edge, None if some fact is unnamed"""
        undecided = False
        for f in self.flow.edge_facts(node):
            kind, key, fn = self.canon(f)
            if kind == "fixed":
                if not fn(None):
                    return False
                continue
            if kind == "enum":
                if not fn(sc[key]):
                    return False
                continue
            lab = self.seen_sign.get(key) if kind == "sign" else self.seen_bool.get(key)
            if lab is None:
                undecided = True
                continue
            if not fn(sc[lab]):
                return False
        return None if undecided else True

    def _eval_ret(self, e, sc):
        if e[0] == "const" and isinstance(e[2], bool):
            return e[2]
        fs = facts_of(e, True)
        # the first fact characterises the expression's truth
        f = fs[0]
        kind, key, fn = self.canon(f)
        if kind == "fixed":
            return fn(None)
        if kind == "enum":
            return fn(sc[key])
        lab = self.seen_sign.get(key) if kind == "sign" else self.seen_bool.get(key)
        if lab is not None:
            return fn(sc[lab])
        return ("expr", show(e, 200))

    def run(self, sc, unnamed_fork=True):
        """set of outcomes under scenario sc"""
        outs = []
        stack = [(0, None, (), (), ())]  # block, current ret value, calls, visited blocks, constant bool locals
        npaths = 0
        while stack:
            bb, ret, calls, vis, lv = stack.pop()
            if vis.count(bb) >= 2:
                continue  # do not unroll loops more than once
            vis = vis + (bb,)
            blk = self.body.blocks[bb]
            lvd = dict(lv)
            for s in blk.stmts:
                if s.k != "assign" or s.lhs[1]:
                    continue
                v = None
                if s.rv.k == "use":
                    o = s.rv.ops[0]
                    if o.kind == "const" and isinstance(o.value(), bool):
                        v = o.value()
                    elif o.place is not None and not o.place[1] and o.place[0] in lvd:
                        v = lvd[o.place[0]]
                    elif o.place is not None and o.place[0] in lvd and isinstance(lvd[o.place[0]], tuple) and lvd[o.place[0]][0] == "adt":
                        # payload of a tracked Ok(..)/Some(..)/Continue(..): `(x as Variant).0`
                        pj = [e for e in o.place[1] if e[0] != "*"]
                        tv = lvd[o.place[0]]
                        if len(pj) == 2 and pj[0][0] == "d" and pj[0][2] == tv[1] and pj[1][0] == "f" and pj[1][1] == 0:
                            v = tv[2]
                elif s.rv.k == "aggr" and s.rv.j.get("ak") == "adt" and s.rv.j.get("variant") in ("Ok", "Some", "Err", "None", "Continue", "Break"):
                    pay = None
                    if len(s.rv.ops) == 1:
                        o = s.rv.ops[0]
                        if o.kind == "const" and isinstance(o.value(), bool):
                            pay = o.value()
                        elif o.place is not None and not o.place[1]:
                            pay = lvd.get(o.place[0])
                    v = ("adt", s.rv.j.get("variant"), pay)
                elif s.rv.k == "discr" and s.rv.place is not None and not [e for e in s.rv.place[1] if e[0] != "*"] and \
                        isinstance(lvd.get(s.rv.place[0]), tuple) and lvd[s.rv.place[0]][0] == "adt":
                    vt = {n: int(d_) for d_, n in s.rv.j.get("variants", [])}
                    if lvd[s.rv.place[0]][1] in vt:
                        v = ("discr", vt[lvd[s.rv.place[0]][1]])
                elif s.rv.k == "un" and s.rv.j["op"] == "Not":
                    o = s.rv.ops[0]
                    if o.place is not None and not o.place[1] and isinstance(lvd.get(o.place[0]), bool):
                        v = not lvd[o.place[0]]
                if v is None and s.rv.k == "bin" and s.rv.j.get("op") in ("Eq", "Ne", "Lt", "Le", "Gt", "Ge") and s.lhs[0] != 0:
                    r_ = self._eval_ret(self.x.rvalue(s.rv, self.x.depth), sc)
                    if isinstance(r_, bool):
                        v = r_
                if v is None:
                    lvd.pop(s.lhs[0], None)
                    if s.lhs[0] == 0:
                        ret = self._eval_ret(self.x.rvalue(s.rv, self.x.depth), sc)
                else:
                    lvd[s.lhs[0]] = v
                    if s.lhs[0] == 0:
                        ret = v
            lv = tuple(sorted(lvd.items()))
            t0 = blk.term
            if t0.k == "call" and t0.dest == (0, ()):
                ret = self._eval_ret(self.x.call_expr(blk.i, t0, self.x.depth), sc)
            t = blk.term
            if t.k == "call":
                cp = t.callee_path() or "<indirect>"
                if self.call_filter and self.call_filter.search(cp):
                    calls = calls + (re.sub(r"<.*?>", "", cp).split("::")[-1] if False else cp,)
                if t.target is None:
                    outs.append(Outcome(None, calls, vis))
                    continue
                lvd2 = dict(lv)
                if t.dest is not None and not t.dest[1]:
                    lvd2.pop(t.dest[0], None)
                    if t.dest[0] != 0 and re.search(r"Partial(Ord|Eq)(<.*>)?>?::(lt|le|gt|ge|eq|ne)$", cp):
                        r_ = self._eval_ret(self.x.call_expr(blk.i, t, self.x.depth), sc)
                        if isinstance(r_, bool):
                            lvd2[t.dest[0]] = r_
                    # `?` on a tracked Ok(..)/Err(..)/Some(..)/None
                    if re.search(r"Try>?::branch$|::branch$", cp.replace(" ", "")) and t.args and t.args[0].place is not None and not t.args[0].place[1]:
                        tv = dict(lv).get(t.args[0].place[0])
                        if isinstance(tv, tuple) and tv[0] == "adt":
                            lvd2[t.dest[0]] = ("adt", "Continue", tv[2]) if tv[1] in ("Ok", "Some") else ("adt", "Break", None)
                    elif cp.endswith("::from_residual"):
                        ty_ = self.body.locals[t.dest[0]]["ty"]
                        if "Result<" in ty_[:30]:
                            lvd2[t.dest[0]] = ("adt", "Err", None)
                        elif "Option<" in ty_[:30]:
                            lvd2[t.dest[0]] = ("adt", "None", None)
                stack.append((t.target, ret, calls, vis, tuple(sorted(lvd2.items()))))
            elif t.k == "return":
                npaths += 1
                outs.append(Outcome(ret, calls, vis))
                if npaths > self.max_paths:
                    raise RuntimeError("too many paths in %s" % self.func.path)
            elif t.k == "switch":
                n = len(t.targets) + 1
                decided = []
                dl = t.discr.place
                if dl is not None and not dl[1] and isinstance(dict(lv).get(dl[0]), tuple) and dict(lv)[dl[0]][0] == "adt":
                    dl = None   # a tracked enum value is only decided through its discriminant local
                if dl is not None and not dl[1] and dl[0] in dict(lv) and (isinstance(dict(lv)[dl[0]], bool) or (isinstance(dict(lv)[dl[0]], tuple) and dict(lv)[dl[0]][0] == "discr")):
                    val = int(dict(lv)[dl[0]]) if isinstance(dict(lv)[dl[0]], bool) else dict(lv)[dl[0]][1]
                    kk = len(t.targets)
                    for k2, (v2, _) in enumerate(t.targets):
                        if v2 == val:
                            kk = k2
                    tgt = t.targets[kk][1] if kk < len(t.targets) else t.otherwise
                    stack.append((tgt, ret, calls, vis, lv))
                    continue
                for k in range(n):
                    ok = self._edge_ok(("e", bb, k), sc)
                    if ok is False:
                        continue
                    decided.append((k, ok))
                for k, ok in decided:
                    tgt = t.targets[k][1] if k < len(t.targets) else t.otherwise
                    stack.append((tgt, ret, calls, vis, lv))
            elif t.k in ("goto", "assert", "drop"):
                if t.target is not None:
                    stack.append((t.target, ret, calls, vis, lv))
            else:
                outs.append(Outcome(None, calls, vis))
        return outs

    def results(self, sc):
        """set of distinct (ret, calls) under the scenario (diverging paths dropped)"""
        return set((o.ret if not isinstance(o.ret, tuple) else o.ret, o.calls) for o in self.run(sc) if not (o.ret is None and not o.calls))


def check_table(rule, table, expected, key_prefix, loc, describe=None, require_labels=()):
    """expected(sc) -> expected return value (True/False) or None for don't-care; every scenario must yield exactly
    that return value on all paths."""
    missing = [l for l in require_labels if l not in table.labels_found()]
    if missing:
        # the function exists (the anchor is present) but its decision no longer depends on a quantity the property
        # names: that is a finding about the code, not an analysis failure
        for l in missing:
            rule.violation("%s depends on %s" % (key_prefix, l),
                           "%s no longer compares/tests `%s` (/%s/); conditions found: %s ; %s" % (
                               table.func.path, l, (table.name_sign.get(l) or table.name_bool.get(l)).pattern,
                               [show_key(k) for k in table.seen_sign], list(table.seen_bool)), loc)
        return 0
    n = 0
    for sc in table.scenarios():
        exp = expected(sc)
        if exp is None:
            continue
        n += 1
        rets = set(r for r, _ in table.results(sc))
        sctxt = ", ".join("%s=%s" % (k, {-1: "<0", 0: "=0", 1: ">0"}.get(v, v) if not isinstance(v, bool) else v) for k, v in sorted(sc.items()))
        key = "%s [%s]" % (key_prefix, sctxt)
        if rets == {exp}:
            rule.ok(key, "returns %s" % exp, loc)
        else:
            rule.violation(key, "under the ordering {%s} the function returns %s, expected %s" % (
                sctxt, sorted(map(str, rets)), exp), loc)
    return n
