#!/usr/bin/python3
"""Checker self-test: apply each stored mutant to a scratch copy of /repo's current tree, run the analyser on the
copy and require the expected rule to report a violation (or, for entries with "expect": "silent" — behaviour-preserving
refactorings — require the check to stay quiet).  The scratch copy lives in mktemp (outside /repo and /verif)
and is removed immediately.  A mutant whose `old` text is no longer present in the tree is *skipped*, never failed."""
import json
import os
import shutil
import subprocess
import sys
import tempfile

HERE = os.path.dirname(os.path.abspath(__file__))
VERIF = os.path.dirname(os.path.dirname(HERE))


def scratch_copy(repo):
    d = tempfile.mkdtemp(prefix="flan-mut-")
    shutil.copytree(os.path.join(repo, "src"), os.path.join(d, "src"))
    for f in ("Cargo.toml", "Cargo.lock"):
        shutil.copy(os.path.join(repo, f), os.path.join(d, f))
    return d


def run_one(m, repo="/repo", verbose=False):
    d = scratch_copy(repo)
    try:
        for ed in m["edits"]:
            p = os.path.join(d, ed["file"])
            s = open(p).read()
            if s.count(ed["old"]) < 1:
                return "skipped", "old text not found in %s" % ed["file"]
            s = s.replace(ed["old"], ed["new"], 1)
            open(p, "w").write(s)
        evd = os.path.join(d, "evidence")
        p = subprocess.run([os.path.join(VERIF, "check"), m["property"], "--repo", d, "--evidence-dir", evd],
                           stdout=subprocess.PIPE, stderr=subprocess.STDOUT, text=True)
        out = p.stdout
        if verbose:
            print(out)
        if p.returncode == 2:
            if "ERROR" in out and "cargo check" in out:
                return "broken-mutant", out[-1500:]
            return "failclosed", out[-800:]
        if m.get("expect") == "silent":
            # behaviour-preserving refactoring: the check must stay quiet (exit 0, no VIOLATION line)
            if p.returncode == 0 and "VIOLATION" not in out:
                return "silent-ok", ""
            return "false-alarm", out[-1200:]
        want = m["expect_rule"]
        hit = [l for l in out.splitlines() if l.strip().startswith("key: ") and l.strip()[5:].startswith(want)]
        if p.returncode == 1 and hit:
            return "caught", hit[0].strip()
        return "missed", out[-800:]
    finally:
        shutil.rmtree(d, ignore_errors=True)


def main():
    import argparse
    ap = argparse.ArgumentParser()
    ap.add_argument("--prop", default=None)
    ap.add_argument("--id", default=None)
    ap.add_argument("--repo", default="/repo")
    ap.add_argument("-v", action="store_true")
    ap.add_argument("-j", "--jobs", type=int, default=6)
    a = ap.parse_args()
    ms = json.load(open(os.path.join(HERE, "mutants.json")))
    bad = 0
    ms = [m for m in ms if not (a.prop and m["property"] != a.prop) and not (a.id and m["id"] != a.id)]
    from concurrent.futures import ThreadPoolExecutor
    with ThreadPoolExecutor(max_workers=a.jobs) as ex:
        for m, (st, info) in zip(ms, ex.map(lambda m_: run_one(m_, a.repo, a.v), ms)):
            print("%-10s %-28s %s" % (st, m["id"], info if st != "caught" else info[:140]), flush=True)
            if st in ("missed", "failclosed", "broken-mutant", "false-alarm"):
                bad += 1
    return 1 if bad else 0


if __name__ == "__main__":
    sys.exit(main())
