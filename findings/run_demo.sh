#!/bin/sh
# run the demonstrations against a tree: ./run_demo.sh <repo dir> [test filter]
# builds in a scratch dir under /tmp (removed afterwards unless KEEP=1)
repo=${1:-/repo}; shift
here=$(cd "$(dirname "$0")" && pwd)
w=${DEMO_DIR:-/tmp/flute-demo}
mkdir -p $w && rm -rf $w/src $w/tests && cp -r $here/demo/src $here/demo/tests $w/ && sed "s#@REPO@#$repo#" $here/demo/Cargo.toml.in > $w/Cargo.toml && cp $repo/Cargo.lock $w/Cargo.lock
# one target directory per analysed tree: cargo was seen to reuse the flute artifact of another path with the same package name/version
t=$w/target-$(echo "$repo" | md5sum | cut -c1-8)
cd $w && CARGO_NET_OFFLINE=true CARGO_TARGET_DIR=$t cargo test --offline --no-fail-fast "$@" 2>&1 | grep -E "^test |test result|panicked|error(\[|:)" 
