// demonstrations live in tests/
