#![allow(dead_code)]
use flute::core::{Oti, UDPEndpoint};
use flute::receiver::{writer, MultiReceiver};
use flute::sender::{ObjectDesc, Sender};
use std::rc::Rc;
use std::time::SystemTime;

pub fn endpoint() -> UDPEndpoint {
    UDPEndpoint::new(None, "224.0.0.1".to_string(), 3400)
}

pub fn sender_with(oti: &Oti, config: &flute::sender::Config) -> Sender {
    Sender::new(endpoint(), 1, oti, config)
}

pub fn all_packets(sender: &mut Sender, now: SystemTime) -> Vec<Vec<u8>> {
    let mut v = Vec::new();
    while let Some(p) = sender.read(now) {
        v.push(p);
        assert!(v.len() < 100000);
    }
    v
}

pub fn receiver() -> (MultiReceiver, Rc<writer::ObjectWriterBufferBuilder>) {
    let w = Rc::new(writer::ObjectWriterBufferBuilder::new(true));
    (MultiReceiver::new(w.clone(), None, false), w)
}

pub fn obj(data: Vec<u8>, name: &str, cfg: flute::sender::TransferConfig) -> Box<ObjectDesc> {
    ObjectDesc::create_from_buffer(data, "text/plain", &url::Url::parse(name).unwrap(), true, cfg).unwrap()
}

/// first object (TOI != 0) packet of a session with one object
pub fn session(oti: &Oti, data: Vec<u8>, cfg: flute::sender::TransferConfig) -> Vec<Vec<u8>> {
    let mut s = sender_with(oti, &Default::default());
    s.add_object(0, obj(data, "file:///a.bin", cfg)).unwrap();
    let now = SystemTime::now();
    s.publish(now).unwrap();
    all_packets(&mut s, now)
}

pub fn is_fdt(pkt: &[u8]) -> bool {
    flute::core::alc::parse_alc_pkt(pkt).map(|p| p.lct.toi == 0).unwrap_or(false)
}
