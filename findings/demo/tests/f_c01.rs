//! Demonstrations of clean-channel delivery defects (C01) found after round 2 of the seeding exercise.
mod common;
use common::*;
use flute::core::Oti;
use std::time::SystemTime;

fn deliver(oti: &Oti, data: Vec<u8>, cfg: flute::sender::TransferConfig) -> Result<Option<Vec<u8>>, String> {
    let pkts = session(oti, data, cfg);
    let (mut r, w) = receiver();
    let now = SystemTime::now();
    for p in &pkts {
        if let Err(e) = r.push(&endpoint(), p, now) {
            return Err(format!("push rejected a packet of flute's own sender: {:?}", e));
        }
    }
    let objs = w.objects.borrow();
    Ok(objs.iter().find(|o| o.borrow().complete).map(|o| o.borrow().data.clone()))
}

// ---- F29 (C01): an empty object sent with RaptorQ / Raptor announces Z = 0 in EXT_FTI, which flute's own receiver rejects ------
#[test]
fn f29_empty_object_raptorq() {
    let oti = Oti::new_raptorq(64, 8, 2, 1, 4).unwrap();
    let got = deliver(&oti, Vec::new(), Default::default());
    assert_eq!(got, Ok(Some(Vec::new())), "empty RaptorQ object");
}

#[test]
fn f29_empty_object_raptor() {
    let oti = Oti::new_raptor(64, 8, 2, 1, 4).unwrap();
    let got = deliver(&oti, Vec::new(), Default::default());
    assert_eq!(got, Ok(Some(Vec::new())), "empty Raptor object");
}

#[test]
fn control_empty_object_other_schemes() {
    for oti in [Oti::new_no_code(64, 8), Oti::new_reed_solomon_rs28(64, 8, 2).unwrap(), Oti::new_reed_solomon_rs28_under_specified(64, 8, 2).unwrap()] {
        assert_eq!(deliver(&oti, Vec::new(), Default::default()), Ok(Some(Vec::new())));
    }
}

// ---- F30 (C10/C06): Config.fdt_start_id >= 2^20 is not reduced modulo 2^20: it spills into the version field of EXT_FDT -------------
#[test]
fn f30_fdt_start_id_above_20_bits() {
    let oti = Oti::new_no_code(64, 8);
    let cfg = flute::sender::Config { fdt_start_id: 0x10_0005, ..Default::default() };
    let mut s = sender_with(&oti, &cfg);
    s.add_object(0, obj(b"hello".to_vec(), "file:///a.bin", Default::default())).unwrap();
    let now = SystemTime::now();
    s.publish(now).unwrap();
    let pkts = all_packets(&mut s, now);
    let fdt_pkt = pkts.iter().find(|p| is_fdt(p)).unwrap();
    // EXT_FDT is the first header extension of an FDT packet: HET=192 | V(4) | FDT Instance ID (20)
    let alc = flute::core::alc::parse_alc_pkt(fdt_pkt).unwrap();
    let ext = flute::core::lct::get_ext(fdt_pkt, &alc.lct, 192).unwrap().expect("EXT_FDT present");
    let word = u32::from_be_bytes([ext[0], ext[1], ext[2], ext[3]]);
    assert_eq!(word >> 24, 192, "HET");
    assert_eq!((word >> 20) & 0xF, 2, "FLUTE version in EXT_FDT (RFC 6726: 2)");
    assert_eq!(word & 0xFFFFF, 0x5, "FDT Instance ID = fdt_start_id mod 2^20");
    // and flute's own receiver must deliver the object
    let (mut r, w) = receiver();
    for p in &pkts {
        r.push(&endpoint(), p, now).unwrap();
    }
    assert!(w.objects.borrow().iter().any(|o| o.borrow().complete), "object delivered");
}

// ---- F32 (C01): the trailer of a gzip / zlib stream that falls into a later source block than the last content byte is an error ---------
#[test]
fn f32_encoded_stream_trailer_in_a_later_block() {
    for cenc in [flute::core::lct::Cenc::Gzip, flute::core::lct::Cenc::Zlib] {
        // 4-byte blocks: the 8-byte gzip trailer (4-byte zlib checksum) always lies in blocks of its own
        let oti = Oti::new_no_code(4, 1);
        let data: Vec<u8> = vec![1, 2, 3, 4, 5];
        let cfg = flute::sender::TransferConfig { oti: Some(oti.clone()), cenc, ..Default::default() };
        let pkts = session(&Oti::new_no_code(1400, 64), data.clone(), cfg);
        let (mut r, w) = receiver();
        let now = SystemTime::now();
        for p in &pkts {
            let _ = r.push(&endpoint(), p, now);
        }
        let objs = w.objects.borrow();
        let got = objs.iter().find(|o| o.borrow().complete).map(|o| o.borrow().data.clone());
        assert_eq!(got, Some(data), "{:?} object with small source blocks", cenc);
    }
}

// ---- F31 (C08): a non-empty object whose first block cannot be encoded is announced as closed by a bogus "empty object" packet ----------
#[test]
fn f31_close_object_packet_for_an_object_that_could_not_be_encoded() {
    // raptor_code refuses source blocks of 2 or 3 symbols: block creation fails in the sender
    let oti = Oti::new_raptor(4, 2, 2, 1, 4).unwrap();
    let cfg = flute::sender::TransferConfig { oti: Some(oti.clone()), ..Default::default() };
    let pkts = session(&Oti::new_no_code(1400, 64), vec![1, 2, 3, 4, 5], cfg);   // debug builds: debug_assert panics inside Sender::read
    for p in pkts.iter().filter(|p| !is_fdt(p)) {
        let alc = flute::core::alc::parse_alc_pkt(p).unwrap();
        let payload_len = p.len() - alc.data_payload_offset;
        assert!(!(alc.lct.close_object && payload_len == 0),
                "a 5-byte object was announced as closed by a packet without any symbol");
    }
}
