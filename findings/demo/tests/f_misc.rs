mod common;
use common::*;
use flute::receiver::writer::{ObjectMetadata, ObjectWriter, ObjectWriterBuilder, ObjectWriterBuilderResult};
use std::cell::RefCell;
use std::rc::Rc;
use std::time::{Duration, SystemTime};

// ---- F11 (C05): Content-Location `a:../escaped.txt` is written outside the destination directory -------------------
#[test]
fn f11_path_escape() {
    let tmp = tempfile::tempdir().unwrap();
    let dest = tmp.path().join("dest");
    std::fs::create_dir_all(&dest).unwrap();
    let w = Rc::new(flute::receiver::writer::ObjectWriterFSBuilder::new(&dest, false).unwrap());
    let mut r = flute::receiver::MultiReceiver::new(w, None, false);
    for loc in ["a:../escaped.txt", "file:////abs_escape_dir/x.txt"] {
        let oti = flute::core::Oti::new_no_code(64, 4);
        let mut s = sender_with(&oti, &Default::default());
        s.add_object(0, obj(b"hello".to_vec(), loc, Default::default())).unwrap();
        let now = SystemTime::now();
        s.publish(now).unwrap();
        for p in all_packets(&mut s, now) {
            let _ = r.push(&endpoint(), &p, now);
        }
    }
    assert!(!tmp.path().join("escaped.txt").exists(), "file created outside the destination directory");
    assert!(!std::path::Path::new("/abs_escape_dir/x.txt").exists());
}

// ---- F12 (C08/C02): close-object flag before the last packet when blocks are interleaved ------------------------------
#[test]
fn f12_close_object_flag_last() {
    let oti = flute::core::Oti::new_reed_solomon_rs28(4, 2, 1).unwrap();
    let cfg = flute::sender::Config { interleave_blocks: 2, ..Default::default() };
    let mut s = sender_with(&oti, &cfg);
    s.add_object(0, obj(vec![9u8; 16], "file:///a", Default::default())).unwrap();
    let now = SystemTime::now();
    s.publish(now).unwrap();
    let flags: Vec<bool> = all_packets(&mut s, now)
        .iter()
        .filter(|p| !is_fdt(p))
        .map(|p| flute::core::alc::parse_alc_pkt(p).unwrap().lct.close_object)
        .collect();
    let n = flags.len();
    assert!(n >= 2);
    assert!(flags[..n - 1].iter().all(|f| !*f), "close-object flag before the final packet: {:?}", flags);
    assert!(flags[n - 1]);
}

// ---- F14 (C16/C09): empty object whose packet arrives before its FDT is marked received but never delivered --------
#[test]
fn f14_empty_object_before_fdt() {
    let oti = flute::core::Oti::new_no_code(64, 4);
    let mut s = sender_with(&oti, &Default::default());
    let cfg = flute::sender::TransferConfig { max_transfer_count: 3, ..Default::default() };
    s.add_object(0, obj(Vec::new(), "file:///empty", cfg)).unwrap();
    let now = SystemTime::now();
    s.publish(now).unwrap();
    let pkts = all_packets(&mut s, now);
    let (mut r, w) = receiver();
    // late joiner: first sees an object packet, then the whole stream (FDT + the later transfers)
    let first_obj = pkts.iter().find(|p| !is_fdt(p)).unwrap();
    r.push(&endpoint(), first_obj, now).unwrap();
    for p in &pkts {
        r.push(&endpoint(), p, now).unwrap();
    }
    let objs = w.objects.borrow();
    assert!(objs.iter().any(|o| o.borrow().complete), "empty object never delivered ({} writers)", objs.len());
}

// ---- F15 (C10/C01): per-object groups are not transmitted ----------------------------------------------------------------
#[test]
fn f15_object_groups() {
    let oti = flute::core::Oti::new_no_code(64, 4);
    let mut s = sender_with(&oti, &Default::default());
    let cfg = flute::sender::TransferConfig { groups: Some(vec!["grp-a".to_string()]), ..Default::default() };
    s.add_object(0, obj(b"x".to_vec(), "file:///g", cfg)).unwrap();
    let now = SystemTime::now();
    s.publish(now).unwrap();
    let (mut r, w) = receiver();
    for p in all_packets(&mut s, now) {
        r.push(&endpoint(), &p, now).unwrap();
    }
    let objs = w.objects.borrow();
    let o = objs.iter().find(|o| o.borrow().complete).expect("object delivered");
    assert_eq!(o.borrow().meta.groups, Some(vec!["grp-a".to_string()]));
}

// ---- F16 (C14): empty object with a target acquisition duration panics the sender --------------------------------------
#[test]
fn f16_empty_object_with_target() {
    let oti = flute::core::Oti::new_no_code(64, 4);
    let mut s = sender_with(&oti, &Default::default());
    let cfg = flute::sender::TransferConfig {
        target_acquisition: Some(flute::sender::TargetAcquisition::WithinDuration(Duration::from_secs(2))),
        ..Default::default()
    };
    s.add_object(0, obj(Vec::new(), "file:///empty", cfg)).unwrap();
    let now = SystemTime::now();
    s.publish(now).unwrap();
    let pkts = all_packets(&mut s, now);
    assert!(pkts.iter().any(|p| !is_fdt(p)));
}

// ---- F17 (C15): ToiMax112 does not mask: random initial TOIs exceed 112 bits -------------------------------------------
#[test]
fn f17_toi_112_bits() {
    for _ in 0..40 {
        let oti = flute::core::Oti::new_no_code(64, 4);
        let cfg = flute::sender::Config { toi_initial_value: None, toi_max_length: flute::sender::TOIMaxLength::ToiMax112, ..Default::default() };
        let mut s = sender_with(&oti, &cfg);
        let toi = s.allocate_toi();
        assert!(toi.get() < (1u128 << 112), "TOI {:#x} does not fit 112 bits", toi.get());
    }
}

// ---- F18 (C17): the per-object packet cache is never limited ------------------------------------------------------------
#[test]
fn f18_cache_limit() {
    let mut oti = flute::core::Oti::new_no_code(1000, 64);
    oti.inband_fti = false; // OTI only in the FDT, which the receiver never sees
    let mut s = sender_with(&oti, &Default::default());
    s.add_object(0, obj(vec![5u8; 200_000], "file:///big", Default::default())).unwrap();
    let now = SystemTime::now();
    s.publish(now).unwrap();
    let w = Rc::new(flute::receiver::writer::ObjectWriterBufferBuilder::new(true));
    let cfg = flute::receiver::Config { object_max_cache_size: Some(1000), max_objects_error: 10, ..Default::default() };
    let mut r = flute::receiver::Receiver::new(&endpoint(), 1, w, Some(cfg));
    for p in all_packets(&mut s, now) {
        if !is_fdt(&p) {
            let _ = r.push_data(&p, now);
        }
    }
    assert!(r.nb_objects_error() > 0, "200 kB cached for an undecodable object with a 1000 byte limit, object not abandoned");
}

// ---- F20 (C20): a stream that returns short reads produces different packets than a buffer -------------------------------
#[derive(Debug)]
struct Dribble {
    data: std::io::Cursor<Vec<u8>>,
}
impl std::io::Read for Dribble {
    fn read(&mut self, buf: &mut [u8]) -> std::io::Result<usize> {
        let n = buf.len().min(7);
        self.data.read(&mut buf[..n])
    }
}
impl std::io::Seek for Dribble {
    fn seek(&mut self, pos: std::io::SeekFrom) -> std::io::Result<u64> {
        self.data.seek(pos)
    }
}

#[test]
fn f20_short_reads() {
    let content: Vec<u8> = (0..200u32).map(|i| i as u8).collect();
    let oti = flute::core::Oti::new_no_code(10, 4);
    let now = SystemTime::now();
    let mut a = sender_with(&oti, &Default::default());
    a.add_object(0, obj(content.clone(), "file:///s", Default::default())).unwrap();
    a.publish(now).unwrap();
    let pa: Vec<Vec<u8>> = all_packets(&mut a, now).into_iter().filter(|p| !is_fdt(p)).collect();
    let mut b = sender_with(&oti, &Default::default());
    let stream: flute::sender::ObjectDataStream = Box::new(Dribble { data: std::io::Cursor::new(content) });
    let o = flute::sender::ObjectDesc::create_from_stream(stream, "text/plain", &url::Url::parse("file:///s").unwrap(), true, Default::default()).unwrap();
    b.add_object(0, o).unwrap();
    b.publish(now).unwrap();
    let pb: Vec<Vec<u8>> = all_packets(&mut b, now).into_iter().filter(|p| !is_fdt(p)).collect();
    let pay = |v: &Vec<Vec<u8>>| -> Vec<Vec<u8>> {
        v.iter().map(|p| { let q = flute::core::alc::parse_alc_pkt(p).unwrap(); q.data[q.data_payload_offset..].to_vec() }).collect()
    };
    assert_eq!(pa.len(), pb.len(), "number of packets differs between buffer and dribbling stream");
    assert_eq!(pay(&pa), pay(&pb));
}

// ---- F21 (C01): Raptor accepts objects longer than the 40-bit F field can carry ---------------------------------------------
#[derive(Debug)]
struct Huge {
    pos: u64,
    len: u64,
}
impl std::io::Read for Huge {
    fn read(&mut self, buf: &mut [u8]) -> std::io::Result<usize> {
        let n = (buf.len() as u64).min(self.len - self.pos) as usize;
        for b in &mut buf[..n] {
            *b = 0;
        }
        self.pos += n as u64;
        Ok(n)
    }
}
impl std::io::Seek for Huge {
    fn seek(&mut self, pos: std::io::SeekFrom) -> std::io::Result<u64> {
        self.pos = match pos {
            std::io::SeekFrom::Start(p) => p,
            std::io::SeekFrom::End(d) => (self.len as i64 + d) as u64,
            std::io::SeekFrom::Current(d) => (self.pos as i64 + d) as u64,
        };
        Ok(self.pos)
    }
}

#[test]
fn f21_raptor_transfer_length_above_40_bits() {
    let oti = flute::core::Oti::new_raptor(65000, 8000, 2, 1, 4).unwrap();
    let mut s = sender_with(&oti, &Default::default());
    let len = (1u64 << 40) + 12345;
    let stream: flute::sender::ObjectDataStream = Box::new(Huge { pos: 0, len });
    let o = flute::sender::ObjectDesc::create_from_stream(stream, "application/octet-stream", &url::Url::parse("file:///huge").unwrap(), false, Default::default()).unwrap();
    // the Raptor EXT_FTI carries F in 40 bits: such an object must be refused when it is added
    assert!(s.add_object(0, o).is_err(), "an object of 2^40+12345 bytes was accepted for a scheme whose wire format carries 40 bits of length");
}

// ---- F24 (C18): MultiReceiver::cleanup evaluates is_expired() twice ------------------------------------------------------------
struct Count {
    open: Rc<RefCell<u32>>,
    closed: Rc<RefCell<u32>>,
}
impl flute::receiver::MultiReceiverListener for Count {
    fn on_session_open(&self, _e: &flute::receiver::ReceiverEndpoint) {
        *self.open.borrow_mut() += 1;
    }
    fn on_session_closed(&self, _e: &flute::receiver::ReceiverEndpoint) {
        *self.closed.borrow_mut() += 1;
    }
}

#[test]
fn f24_cleanup_close_event() {
    // statistical: sessions whose timeout elapses between the two evaluations lose their close event
    let mut lost = 0;
    for _ in 0..300 {
        let w = Rc::new(flute::receiver::writer::ObjectWriterBufferBuilder::new(true));
        let cfg = flute::receiver::Config { session_timeout: Some(Duration::from_micros(300)), ..Default::default() };
        let mut r = flute::receiver::MultiReceiver::new(w, Some(cfg), false);
        let (op, cl) = (Rc::new(RefCell::new(0)), Rc::new(RefCell::new(0)));
        r.add_listener(Count { open: op.clone(), closed: cl.clone() });
        let oti = flute::core::Oti::new_no_code(64, 4);
        let pkts = session(&oti, vec![1u8; 10], Default::default());
        let now = SystemTime::now();
        r.push(&endpoint(), &pkts[0], now).unwrap();
        let t0 = std::time::Instant::now();
        while t0.elapsed() < Duration::from_micros(290) {}
        r.cleanup(now);
        let (o, c) = (*op.borrow(), *cl.borrow());
        drop(r);
        let c2 = *cl.borrow();
        assert_eq!(o, 1);
        if c2 != 1 {
            lost += 1;
        }
        let _ = c;
    }
    assert_eq!(lost, 0, "sessions removed by cleanup() without exactly one close event");
}

// ---- F13 (C09): open() fails inside push(); error() then complete() / second error() -----------------------------------------------
#[derive(Debug)]
struct LogWriter {
    log: Rc<RefCell<Vec<&'static str>>>,
}
impl ObjectWriter for LogWriter {
    fn open(&self, _now: SystemTime) -> flute::error::Result<()> {
        self.log.borrow_mut().push("open");
        Err(flute::error::FluteError::new("cannot open"))
    }
    fn write(&self, _sbn: u32, _data: &[u8], _now: SystemTime) -> flute::error::Result<()> {
        self.log.borrow_mut().push("write");
        Ok(())
    }
    fn complete(&self, _now: SystemTime) {
        self.log.borrow_mut().push("complete");
    }
    fn error(&self, _now: SystemTime) {
        self.log.borrow_mut().push("error");
    }
    fn interrupted(&self, _now: SystemTime) {
        self.log.borrow_mut().push("interrupted");
    }
    fn enable_md5_check(&self) -> bool {
        false
    }
}
#[derive(Debug)]
struct LogBuilder {
    log: Rc<RefCell<Vec<&'static str>>>,
}
impl ObjectWriterBuilder for LogBuilder {
    fn new_object_writer(&self, _e: &flute::core::UDPEndpoint, _tsi: &u64, _toi: &u128, _meta: &ObjectMetadata, _now: SystemTime) -> ObjectWriterBuilderResult {
        self.log.borrow_mut().push("new");
        ObjectWriterBuilderResult::StoreObject(Box::new(LogWriter { log: self.log.clone() }))
    }
    fn update_cache_control(&self, _e: &flute::core::UDPEndpoint, _tsi: &u64, _toi: &u128, _meta: &ObjectMetadata, _now: SystemTime) {}
    fn fdt_received(&self, _e: &flute::core::UDPEndpoint, _tsi: &u64, _xml: &str, _exp: SystemTime, _meta: &ObjectMetadata, _d: Duration, _now: SystemTime, _ext: Option<SystemTime>) {}
}

#[test]
fn f13_terminal_call_after_failed_open() {
    // an FDT File entry without FEC-OTI attributes: the writer can only be created when a packet with EXT_FTI arrives
    let xml = br#"<?xml version="1.0" encoding="UTF-8"?>
<FDT-Instance Expires="4102444800">
 <File Content-Location="file:///e" TOI="5" Content-Length="0" Transfer-Length="0"/>
</FDT-Instance>"#;
    let oti = flute::core::Oti::new_no_code(1400, 64);
    let tpl = session(&oti, vec![1u8; 10], Default::default()).into_iter().find(|p| is_fdt(p)).unwrap();
    let parsed = flute::core::alc::parse_alc_pkt(&tpl).unwrap();
    let payload_off = parsed.data_payload_offset;
    let mut off = parsed.lct.header_ext_offset as usize;
    let end = parsed.lct.len;
    drop(parsed);
    let mut fti = 0;
    while off < end {
        let h = tpl[off];
        if h == 64 { fti = off; }
        off += if h >= 128 { 4 } else { (tpl[off + 1] as usize) * 4 };
    }
    let mut fdt = tpl[..payload_off].to_vec();
    let l = (xml.len() as u64).to_be_bytes();
    fdt[fti + 2..fti + 8].copy_from_slice(&l[2..8]);
    fdt.extend(&xml[..]);

    let log = Rc::new(RefCell::new(Vec::new()));
    let b = Rc::new(LogBuilder { log: log.clone() });
    let mut r = flute::receiver::MultiReceiver::new(b, None, false);
    let now = SystemTime::now();
    r.push(&endpoint(), &fdt, now).unwrap();
    // the empty object TOI 5, with in-band EXT_FTI
    let cfg = flute::sender::Config { toi_initial_value: Some(5), ..Default::default() };
    let oti2 = flute::core::Oti::new_no_code(64, 4);
    let mut s = sender_with(&oti2, &cfg);
    s.add_object(0, obj(Vec::new(), "file:///e", Default::default())).unwrap();
    s.publish(now).unwrap();
    for p in all_packets(&mut s, now) {
        if !is_fdt(&p) {
            let _ = r.push(&endpoint(), &p, now);
        }
    }
    drop(r);
    let v: Vec<&str> = log.borrow().iter().filter(|e| **e != "new").cloned().collect();
    let terminals = v.iter().filter(|e| ["complete", "error", "interrupted"].contains(e)).count();
    assert!(terminals <= 1, "more than one terminal call: {:?}", v);
}

// ---- F33 (C02/C16): FDT-only OTI, every packet of the object received before the first complete FDT: the packet cache is replayed
// last-in-first-out, so the B-flagged last packet is replayed first and interrupts an object whose symbols are all there ------------
#[test]
fn f33_cache_replayed_in_reception_order() {
    let mut oti = flute::core::Oti::new_no_code(64, 4);
    oti.inband_fti = false;
    let mut s = sender_with(&oti, &Default::default());
    let data: Vec<u8> = (0..1000u32).map(|i| (i % 251) as u8).collect();
    s.add_object(0, obj(data.clone(), "file:///late-fdt", Default::default())).unwrap();
    let now = SystemTime::now();
    s.publish(now).unwrap();
    let pkts = all_packets(&mut s, now);
    let (fdt, object): (Vec<_>, Vec<_>) = pkts.iter().cloned().partition(|p| is_fdt(p));
    assert!(!fdt.is_empty() && object.len() > 2);
    let (mut r, w) = receiver();
    // the first copy of the FDT is lost; the object is received in full; then a later copy of the same FDT instance arrives
    for p in &object {
        r.push(&endpoint(), p, now).unwrap();
    }
    for p in &fdt {
        r.push(&endpoint(), p, now).unwrap();
    }
    let objs = w.objects.borrow();
    let done = objs.iter().find(|o| o.borrow().complete).map(|o| o.borrow().data.clone());
    assert_eq!(done.as_deref(), Some(&data[..]), "all symbols and the FDT were received, the object must be delivered ({} writer(s), errors: {:?})",
               objs.len(), objs.iter().map(|o| o.borrow().error).collect::<Vec<_>>());
}

// ---- F34 candidate (C02): in-band FTI, every packet of the object received before the first complete FDT ---------------------------
#[test]
fn f34_object_complete_in_memory_before_fdt() {
    let oti = flute::core::Oti::new_no_code(64, 4);
    let mut s = sender_with(&oti, &Default::default());
    let data: Vec<u8> = (0..1000u32).map(|i| (i % 251) as u8).collect();
    s.add_object(0, obj(data.clone(), "file:///late-fdt-inband", Default::default())).unwrap();
    let now = SystemTime::now();
    s.publish(now).unwrap();
    let pkts = all_packets(&mut s, now);
    let (fdt, object): (Vec<_>, Vec<_>) = pkts.iter().cloned().partition(|p| is_fdt(p));
    let (mut r, w) = receiver();
    for p in &object {
        r.push(&endpoint(), p, now).unwrap();
    }
    for p in &fdt {
        r.push(&endpoint(), p, now).unwrap();
    }
    let objs = w.objects.borrow();
    let done = objs.iter().find(|o| o.borrow().complete).map(|o| o.borrow().data.clone());
    assert_eq!(done.as_deref(), Some(&data[..]), "all symbols and the FDT were received ({} writer(s), errors: {:?})",
               objs.len(), objs.iter().map(|o| o.borrow().error).collect::<Vec<_>>());
}
