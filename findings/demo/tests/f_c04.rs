mod common;
use common::*;
use std::time::SystemTime;

// F1: a 3-byte datagram whose HDR_LEN byte is 0 passes `len <= data.len()` and then data[3] is indexed
#[test]
fn f1_three_byte_datagram() {
    let (mut r, _w) = receiver();
    let _ = r.push(&endpoint(), &[0x10, 0, 0], SystemTime::now());
}

// F2: RS GF(2^8) EXT_FTI with max_n < B : `max_n - B` underflows
#[test]
fn f2_rs28_fti_max_n_below_b() {
    let oti = flute::core::Oti::new_reed_solomon_rs28(8, 4, 2).unwrap();
    let pkts = session(&oti, vec![1u8; 64], Default::default());
    let (mut r, _w) = receiver();
    for p in pkts {
        if is_fdt(&p) {
            let _ = r.push(&endpoint(), &p, SystemTime::now());
            continue;
        }
        let parsed = flute::core::alc::parse_alc_pkt(&p).unwrap();
        let off = parsed.lct.header_ext_offset as usize;
        drop(parsed);
        let mut q = p.clone();
        // extension list starts at header_ext_offset; FTI is the only extension: HET HEL L(6) E(2) B max_n
        assert_eq!(q[off], 64);
        q[off + 11] = 1; // max_n = 1 < B = 4
        let _ = r.push(&endpoint(), &q, SystemTime::now());
        break;
    }
}

// F6: No-Code object packet whose SBN is beyond the number of blocks: partition::block_length underflows
#[test]
fn f6_sbn_beyond_partition() {
    let oti = flute::core::Oti::new_no_code(8, 4);
    let pkts = session(&oti, vec![7u8; 100], Default::default());
    let (mut r, _w) = receiver();
    for p in pkts {
        if is_fdt(&p) {
            r.push(&endpoint(), &p, SystemTime::now()).unwrap();
            continue;
        }
        let parsed = flute::core::alc::parse_alc_pkt(&p).unwrap();
        let off = parsed.data_alc_header_offset;
        drop(parsed);
        let mut q = p.clone();
        q[off] = 0;
        q[off + 1] = 200; // SBN = 200, the object has 4 blocks
        let _ = r.push(&endpoint(), &q, SystemTime::now());
        break;
    }
}

// F10: unknown header extension with HEL = 64 (256 bytes) must be skipped, not rejected
#[test]
fn f10_long_unknown_extension_is_skipped() {
    let oti = flute::core::Oti::new_no_code(16, 4);
    let pkts = session(&oti, vec![3u8; 32], Default::default());
    let p = pkts.iter().find(|p| !is_fdt(p)).unwrap();
    let parsed = flute::core::alc::parse_alc_pkt(p).unwrap();
    let ext_off = parsed.lct.header_ext_offset as usize;
    let hdr_len = parsed.lct.len;
    drop(parsed);
    // insert an unknown variable-length extension (HET=10, HEL=64 -> 256 bytes) in front of the existing ones
    let mut q = Vec::new();
    q.extend(&p[..ext_off]);
    let mut ext = vec![0u8; 256];
    ext[0] = 10;
    ext[1] = 64;
    q.extend(&ext);
    q.extend(&p[ext_off..]);
    let new_len = hdr_len + 256;
    assert!(new_len / 4 <= 255);
    q[2] = (new_len / 4) as u8;
    let parsed = flute::core::alc::parse_alc_pkt(&q);
    assert!(parsed.is_ok(), "{:?}", parsed.err());
}

fn find_ext(p: &[u8], het: u8) -> Option<usize> {
    let parsed = flute::core::alc::parse_alc_pkt(p).unwrap();
    let mut off = parsed.lct.header_ext_offset as usize;
    let end = parsed.lct.len;
    while off < end {
        let h = p[off];
        let l = if h >= 128 { 4 } else { (p[off + 1] as usize) * 4 };
        if h == het {
            return Some(off);
        }
        off += l;
    }
    None
}

/// replace the payload of a single-packet FDT (No-Code) by `xml` and patch the transfer length in its EXT_FTI
fn craft_fdt(template: &[u8], xml: &[u8]) -> Vec<u8> {
    let parsed = flute::core::alc::parse_alc_pkt(template).unwrap();
    let payload_off = parsed.data_payload_offset;
    drop(parsed);
    let fti = find_ext(template, 64).unwrap();
    let mut q = template[..payload_off].to_vec();
    let l = (xml.len() as u64).to_be_bytes();
    q[fti + 2..fti + 8].copy_from_slice(&l[2..8]);
    q.extend(xml);
    q
}

fn fdt_template() -> Vec<u8> {
    let oti = flute::core::Oti::new_no_code(1400, 64);
    let pkts = session(&oti, vec![1u8; 10], Default::default());
    pkts.into_iter().find(|p| is_fdt(p)).unwrap()
}

// F3: FDT whose File announces Max-Number-of-Encoding-Symbols < Maximum-Source-Block-Length (u64 underflow in get_oti)
#[test]
fn f3_fdt_max_encoding_symbols_below_block_length() {
    let xml = br#"<?xml version="1.0" encoding="UTF-8"?>
<FDT-Instance Expires="4102444800" FEC-OTI-FEC-Encoding-ID="5" FEC-OTI-Maximum-Source-Block-Length="64" FEC-OTI-Encoding-Symbol-Length="16" FEC-OTI-Max-Number-of-Encoding-Symbols="3">
 <File Content-Location="file:///x" TOI="5" Content-Length="10" Transfer-Length="10"/>
</FDT-Instance>"#;
    let (mut r, _w) = receiver();
    let fdt = craft_fdt(&fdt_template(), xml);
    let _ = r.push(&endpoint(), &fdt, SystemTime::now());
    // an object packet of TOI 5 without in-band FTI makes the receiver derive the OTI of that file from the FDT
    let mut oti = flute::core::Oti::new_no_code(16, 4);
    oti.inband_fti = false;
    let cfg = flute::sender::Config { toi_initial_value: Some(5), ..Default::default() };
    let mut s = sender_with(&oti, &cfg);
    let toi = s.add_object(0, obj(vec![1u8; 10], "file:///x", Default::default())).unwrap();
    assert_eq!(toi, 5);
    let now = SystemTime::now();
    s.publish(now).unwrap();
    for p in all_packets(&mut s, now) {
        if !is_fdt(&p) {
            let _ = r.push(&endpoint(), &p, SystemTime::now());
        }
    }
}

// F4: RS GF(2^m) FTI with m >= 32 : `payload_id_header >> m`
#[test]
fn f4_rs2m_shift_by_m() {
    let oti = flute::core::Oti::new_no_code(16, 4);
    let pkts = session(&oti, vec![3u8; 64], Default::default());
    let p = pkts.iter().find(|p| !is_fdt(p)).unwrap();
    let fti = find_ext(p, 64).unwrap();
    let mut q = p.clone();
    q[3] = 2; // codepoint = FEC Encoding ID 2 (Reed-Solomon GF(2^m))
    q[fti + 8] = 40; // m
    q[fti + 9] = 1; // G
    q[fti + 10] = 0;
    q[fti + 11] = 16; // E
    q[fti + 12] = 0;
    q[fti + 13] = 4; // B
    q[fti + 14] = 0;
    q[fti + 15] = 6; // max_n
    let (mut r, _w) = receiver();
    let _ = r.push(&endpoint(), &q, SystemTime::now());
}

// F5: RS GF(2^m) is not implemented in the block layer: BlockDecoder::init leaves no decoder and push() asserts
#[test]
fn f5_rs2m_block_decoder() {
    let oti = flute::core::Oti::new_no_code(16, 4);
    let pkts = session(&oti, vec![3u8; 64], Default::default());
    let p = pkts.iter().find(|p| !is_fdt(p)).unwrap();
    let fti = find_ext(p, 64).unwrap();
    let mut q = p.clone();
    q[3] = 2;
    q[fti + 8] = 8; // m
    q[fti + 9] = 1;
    q[fti + 10] = 0;
    q[fti + 11] = 16;
    q[fti + 12] = 0;
    q[fti + 13] = 4;
    q[fti + 14] = 0;
    q[fti + 15] = 6;
    let (mut r, _w) = receiver();
    let _ = r.push(&endpoint(), &q, SystemTime::now());
}
