//! exploratory grid (not a finding demonstration): which small configurations are not delivered on a clean channel
mod common;
use common::*;
use flute::core::Oti;
use std::time::SystemTime;

fn deliver(_oti: &Oti, data: Vec<u8>, cfg: flute::sender::TransferConfig) -> Result<Option<Vec<u8>>, String> {
    let r = std::panic::catch_unwind(|| {
        let pkts = session(&Oti::new_no_code(1400, 64), data, cfg);
        let (mut r, w) = receiver();
        let now = SystemTime::now();
        for p in &pkts {
            if let Err(e) = r.push(&endpoint(), p, now) {
                return Err(format!("push Err {:?}", e));
            }
        }
        let objs = w.objects.borrow();
        Ok(objs.iter().find(|o| o.borrow().complete).map(|o| o.borrow().data.clone()))
    });
    match r { Ok(x) => x, Err(_) => Err("PANIC".to_string()) }
}

#[test]
fn grid() {
    let mut bad = Vec::new();
    for &e in &[1u16, 4, 16, 64] {
        for &b in &[1u16, 2, 3, 8] {
            let schemes: Vec<(&str, Option<Oti>)> = vec![
                ("nocode", Some(Oti::new_no_code(e, b))),
                ("rs28", Oti::new_reed_solomon_rs28(e, b as u8, 2).ok()),
                ("rs28us", Oti::new_reed_solomon_rs28_under_specified(e, b, 2).ok()),
                ("raptorq", Oti::new_raptorq(e, b, 2, 1, if e % 4 == 0 {4} else {1}).ok()),
                ("raptor", Oti::new_raptor(e, b, 2, 1, if e % 4 == 0 {4} else {1}).ok()),
            ];
            for (name, oti) in schemes {
                let oti = match oti { Some(o) => o, None => continue };
                for &len in &[0usize, 1, 3, 4, 5, 17, 64, 65, 200] {
                    for cenc in [flute::core::lct::Cenc::Null, flute::core::lct::Cenc::Gzip, flute::core::lct::Cenc::Zlib, flute::core::lct::Cenc::Deflate] {
                        let data: Vec<u8> = (0..len).map(|i| (i * 7 + 3) as u8).collect();
                        let cfg = flute::sender::TransferConfig { cenc, oti: Some(oti.clone()), ..Default::default() };
                        let cfg2 = flute::sender::TransferConfig { cenc, oti: Some(oti.clone()), ..Default::default() };
                        let objr = flute::sender::ObjectDesc::create_from_buffer(data.clone(), "text/plain", &url::Url::parse("file:///a.bin").unwrap(), true, cfg2);
                        if objr.is_err() { continue; }
                        let mut s = sender_with(&Oti::new_no_code(1400, 64), &Default::default());
                        if s.add_object(0, objr.unwrap()).is_err() { continue; }   // refused at add time: fine
                        let got = deliver(&oti, data.clone(), cfg);
                        if got != Ok(Some(data.clone())) {
                            bad.push(format!("{} E={} B={} len={} cenc={:?}: {:?}", name, e, b, len, cenc, got.map(|o| o.map(|v| v.len()))));
                        }
                    }
                }
            }
        }
    }
    for b in &bad { println!("BAD {}", b); }
    println!("{} bad configurations", bad.len());
    assert!(bad.is_empty());
}
