mod common;
use common::*;
use std::time::{Duration, SystemTime};

fn find_ext(p: &[u8], het: u8) -> Option<usize> {
    let parsed = flute::core::alc::parse_alc_pkt(p).unwrap();
    let mut off = parsed.lct.header_ext_offset as usize;
    let end = parsed.lct.len;
    while off < end {
        let h = p[off];
        let l = if h >= 128 { 4 } else { (p[off + 1] as usize) * 4 };
        if h == het {
            return Some(off);
        }
        off += l;
    }
    None
}

fn craft_fdt(xml: &[u8]) -> Vec<u8> {
    let oti = flute::core::Oti::new_no_code(1400, 64);
    let template = session(&oti, vec![1u8; 10], Default::default()).into_iter().find(|p| is_fdt(p)).unwrap();
    let parsed = flute::core::alc::parse_alc_pkt(&template).unwrap();
    let payload_off = parsed.data_payload_offset;
    drop(parsed);
    let fti = find_ext(&template, 64).unwrap();
    let mut q = template[..payload_off].to_vec();
    let l = (xml.len() as u64).to_be_bytes();
    q[fti + 2..fti + 8].copy_from_slice(&l[2..8]);
    q.extend(xml);
    q
}

fn with_timeout<F: FnOnce() + Send + 'static>(secs: u64, f: F) {
    let (tx, rx) = std::sync::mpsc::channel();
    std::thread::spawn(move || {
        let r = std::panic::catch_unwind(std::panic::AssertUnwindSafe(f));
        let _ = tx.send(r.is_ok());
    });
    match rx.recv_timeout(Duration::from_secs(secs)) {
        Ok(true) => {}
        Ok(false) => panic!("receiver panicked"),
        Err(_) => panic!("receiver did not return within {} s (hang)", secs),
    }
}

// F8: first block of a content-encoded object made of an empty payload: RingBuffer of capacity 0, write_size underflows
#[test]
fn f8_empty_first_block_of_encoded_object() {
    with_timeout(10, || {
        let xml = br#"<?xml version="1.0" encoding="UTF-8"?>
<FDT-Instance Expires="4102444800" FEC-OTI-FEC-Encoding-ID="0" FEC-OTI-Maximum-Source-Block-Length="1" FEC-OTI-Encoding-Symbol-Length="10">
 <File Content-Location="file:///z" TOI="5" Content-Length="10" Transfer-Length="20" Content-Encoding="gzip"/>
</FDT-Instance>"#;
        let (mut r, _w) = receiver();
        let now = SystemTime::now();
        r.push(&endpoint(), &craft_fdt(xml), now).unwrap();
        // object packets of TOI 5 without in-band FTI, payload removed
        let mut oti = flute::core::Oti::new_no_code(10, 1);
        oti.inband_fti = false;
        let cfg = flute::sender::Config { toi_initial_value: Some(5), ..Default::default() };
        let mut s = sender_with(&oti, &cfg);
        s.add_object(0, obj(vec![1u8; 20], "file:///z", Default::default())).unwrap();
        s.publish(now).unwrap();
        for p in all_packets(&mut s, now) {
            if !is_fdt(&p) {
                let parsed = flute::core::alc::parse_alc_pkt(&p).unwrap();
                let off = parsed.data_payload_offset;
                drop(parsed);
                let _ = r.push(&endpoint(), &p[..off], now);
            }
        }
    });
}

// F7: Content-Length smaller than the decoded content: once it is reached nothing drains the ring buffer any more and
// decode_write_pkt spins forever on `write() == 0`
#[test]
fn f7_content_length_reached_before_end_of_encoded_data() {
    with_timeout(20, || {
        // incompressible content so that the encoded size is large
        let mut x: u32 = 12345;
        let content: Vec<u8> = (0..600_000).map(|_| { x = x.wrapping_mul(1664525).wrapping_add(1013904223); (x >> 24) as u8 }).collect();
        let oti = flute::core::Oti::new_no_code(1000, 64);
        let cfg = flute::sender::Config { toi_initial_value: Some(5), ..Default::default() };
        let mut s = sender_with(&oti, &cfg);
        let tc = flute::sender::TransferConfig { cenc: flute::core::lct::Cenc::Gzip, ..Default::default() };
        s.add_object(0, obj(content, "file:///c", tc)).unwrap();
        let now = SystemTime::now();
        s.publish(now).unwrap();
        let pkts = all_packets(&mut s, now);
        let tl = pkts.iter().filter(|p| !is_fdt(p)).map(|p| flute::core::alc::parse_alc_pkt(p).unwrap().transfer_length.unwrap()).next().unwrap();
        let xml = format!(r#"<?xml version="1.0" encoding="UTF-8"?>
<FDT-Instance Expires="4102444800" FEC-OTI-FEC-Encoding-ID="0" FEC-OTI-Maximum-Source-Block-Length="64" FEC-OTI-Encoding-Symbol-Length="1000">
 <File Content-Location="file:///c" TOI="5" Content-Length="1" Transfer-Length="{}" Content-Encoding="gzip"/>
</FDT-Instance>"#, tl);
        let (mut r, _w) = receiver();
        r.push(&endpoint(), &craft_fdt(xml.as_bytes()), now).unwrap();
        for p in pkts {
            if !is_fdt(&p) {
                let _ = r.push(&endpoint(), &p, now);
            }
        }
    });
}
