//! Demonstrations that measure allocations (run with `-- --test-threads=1`: the allocation counters are global).
//! f9_* and f35_* demonstrate KNOWN, unrepaired findings and FAIL on the current tree by design; f19_* fails on the original tree and passes since its fix.
mod common;
use common::*;
use std::alloc::{GlobalAlloc, Layout, System};
use std::sync::atomic::{AtomicUsize, Ordering};
use std::time::SystemTime;

struct Counting;
static LIVE: AtomicUsize = AtomicUsize::new(0);
static PEAK: AtomicUsize = AtomicUsize::new(0);
unsafe impl GlobalAlloc for Counting {
    unsafe fn alloc(&self, l: Layout) -> *mut u8 {
        let n = LIVE.fetch_add(l.size(), Ordering::SeqCst) + l.size();
        PEAK.fetch_max(n, Ordering::SeqCst);
        System.alloc(l)
    }
    unsafe fn dealloc(&self, p: *mut u8, l: Layout) {
        LIVE.fetch_sub(l.size(), Ordering::SeqCst);
        System.dealloc(p, l)
    }
}
#[global_allocator]
static A: Counting = Counting;

fn find_ext(p: &[u8], het: u8) -> Option<usize> {
    let parsed = flute::core::alc::parse_alc_pkt(p).unwrap();
    let mut off = parsed.lct.header_ext_offset as usize;
    let end = parsed.lct.len;
    while off < end {
        let h = p[off];
        let l = if h >= 128 { 4 } else { (p[off + 1] as usize) * 4 };
        if h == het {
            return Some(off);
        }
        off += l;
    }
    None
}

// F9 (C04/C17): one 40-byte No-Code packet announcing B = 20_000_000 symbols per block makes the receiver allocate 24 bytes per symbol
#[test]
fn f9_nocode_block_allocation_from_the_wire() {
    let oti = flute::core::Oti::new_no_code(1, 4);
    let pkts = session(&oti, vec![3u8; 8], Default::default());
    let p = pkts.iter().find(|p| !is_fdt(p)).unwrap();
    let fti = find_ext(p, 64).unwrap();
    let mut q = p.clone();
    // L = 2^40, E = 1, B = 20_000_000
    q[fti + 2..fti + 8].copy_from_slice(&[0x01, 0, 0, 0, 0, 0]);
    q[fti + 10] = 0;
    q[fti + 11] = 1;
    q[fti + 12..fti + 16].copy_from_slice(&20_000_000u32.to_be_bytes());
    let (mut r, _w) = receiver();
    let before = PEAK.load(Ordering::SeqCst);
    let _ = r.push(&endpoint(), &q, SystemTime::now());
    let after = PEAK.load(Ordering::SeqCst);
    assert!(after - before < 64 * 1024 * 1024, "one {}-byte packet made the receiver allocate {} MB", q.len(), (after - before) / (1024 * 1024));
}

// F19 (C17): FDT instances that never complete are kept for ever by Receiver::cleanup
#[test]
fn f19_unfinished_fdt_instances_are_never_released() {
    let oti = flute::core::Oti::new_no_code(16, 4);
    // an FDT that needs several packets: only its first packet is ever sent, under many instance ids
    let mut s = sender_with(&oti, &Default::default());
    for i in 0..20 {
        s.add_object(0, obj(vec![1u8; 10], &format!("file:///some/long/name/to/make/the/fdt/bigger/{}", i), Default::default())).unwrap();
    }
    let now = SystemTime::now();
    s.publish(now).unwrap();
    let first = all_packets(&mut s, now).into_iter().find(|p| is_fdt(p)).unwrap();
    let fdt_ext = find_ext(&first, 192).unwrap();
    let w = std::rc::Rc::new(flute::receiver::writer::ObjectWriterBufferBuilder::new(true));
    let cfg = flute::receiver::Config { object_timeout: Some(std::time::Duration::from_millis(1)), ..Default::default() };
    let mut r = flute::receiver::Receiver::new(&endpoint(), 1, w, Some(cfg));
    let live0 = LIVE.load(Ordering::SeqCst);
    for id in 1..2000u32 {
        let mut q = first.clone();
        let v = (q[fdt_ext + 1] & 0xF0) as u32;
        let word = (192u32 << 24) | (v << 16) | id;
        q[fdt_ext..fdt_ext + 4].copy_from_slice(&word.to_be_bytes());
        let _ = r.push_data(&q, now);
    }
    std::thread::sleep(std::time::Duration::from_millis(20));
    r.cleanup(SystemTime::now());
    let held = LIVE.load(Ordering::SeqCst) - live0;
    assert!(held < 512 * 1024, "after the timeouts and cleanup() the receiver still holds {} kB for 2000 FDT instances that never completed", held / 1024);
}

// ---- F35 (C01/C03, known finding): a `no-cache` object sent with FEC parity is completed, then the parity packets that follow in the same
// transfer re-create the object (it is not entered in objects_completed), open a second writer for it and end it in error ------------
#[test]
fn f35_no_cache_object_followed_by_its_own_parity_packets() {
    let oti = flute::core::Oti::new_reed_solomon_rs28(64, 4, 2).unwrap();
    let mut s = sender_with(&oti, &Default::default());
    let data: Vec<u8> = (0..1000u32).map(|i| (i % 251) as u8).collect();
    let cfg = flute::sender::TransferConfig { cache_control: Some(flute::sender::CacheControl::NoCache), ..Default::default() };
    s.add_object(0, obj(data.clone(), "file:///no-cache", cfg)).unwrap();
    let now = SystemTime::now();
    s.publish(now).unwrap();
    let (mut r, w) = receiver();
    for p in all_packets(&mut s, now) {
        r.push(&endpoint(), &p, now).unwrap();
    }
    let objs = w.objects.borrow();
    let complete = objs.iter().filter(|o| o.borrow().complete).count();
    let failed = objs.iter().filter(|o| o.borrow().error).count();
    assert_eq!((objs.len(), complete, failed), (1, 1, 0), "(writers created, complete, in error)");
}

// ---- F36 (C01, known finding): publish mode ObjectsBeingTransferred + max_transfer_count 2 + another object transferred in between:
// the FDT instance published when the other object starts does not list the first object any more, the receiver's
// gc_object_completed forgets it, and its second transfer is delivered a second time although receive-once is enabled --------------
#[test]
fn f36_receive_once_forgotten_between_two_transfers() {
    let oti = flute::core::Oti::new_no_code(64, 4);
    let mut cfg: flute::sender::Config = Default::default();
    cfg.fdt_publish_mode = flute::sender::FDTPublishMode::ObjectsBeingTransferred;
    cfg.priority_queues.insert(0, flute::sender::PriorityQueue::new(1));
    let mut s = sender_with(&oti, &cfg);
    let a: Vec<u8> = (0..1000u32).map(|i| (i % 251) as u8).collect();
    let b: Vec<u8> = (0..700u32).map(|i| (i % 13) as u8).collect();
    let twice = flute::sender::TransferConfig { max_transfer_count: 2, ..Default::default() };
    s.add_object(0, obj(a.clone(), "file:///a", twice)).unwrap();
    s.add_object(0, obj(b.clone(), "file:///b", Default::default())).unwrap();
    let now = SystemTime::now();
    s.publish(now).unwrap();
    let (mut r, w) = receiver();
    for p in all_packets(&mut s, now) {
        r.push(&endpoint(), &p, now).unwrap();
    }
    let objs = w.objects.borrow();
    let copies_a = objs.iter().filter(|o| o.borrow().complete && o.borrow().data == a).count();
    let copies_b = objs.iter().filter(|o| o.borrow().complete && o.borrow().data == b).count();
    assert_eq!((copies_a, copies_b), (1, 1), "(complete copies of a, of b) with receive-once enabled");
}
