mod common;
use common::*;
use std::time::SystemTime;

fn find_ext(p: &[u8], het: u8) -> Option<usize> {
    let parsed = flute::core::alc::parse_alc_pkt(p).unwrap();
    let mut off = parsed.lct.header_ext_offset as usize;
    let end = parsed.lct.len;
    while off < end {
        let h = p[off];
        let l = if h >= 128 { 4 } else { (p[off + 1] as usize) * 4 };
        if h == het {
            return Some(off);
        }
        off += l;
    }
    None
}

fn raptorq_session(len: usize) -> Vec<Vec<u8>> {
    let oti = flute::core::Oti::new_raptorq(64, 8, 2, 1, 4).unwrap();
    session(&oti, (0..len).map(|i| i as u8).collect(), Default::default())
}

fn push_all(pkts: &[Vec<u8>]) {
    let (mut r, _w) = receiver();
    let now = SystemTime::now();
    for p in pkts {
        let _ = r.push(&endpoint(), p, now);
    }
}

// F27a: a RaptorQ object packet with a truncated payload: the dependency slices the symbol with the announced symbol size
#[test]
fn f27a_raptorq_truncated_symbol() {
    let mut pkts = raptorq_session(1000);
    for p in pkts.iter_mut() {
        if !is_fdt(p) {
            let n = p.len();
            p.truncate(n - 10);
            break;
        }
    }
    push_all(&pkts);
}

// F27b: RaptorQ EXT_FTI announcing N = 0 sub-blocks: division by zero when the block is decoded
#[test]
fn f27b_raptorq_zero_sub_blocks() {
    let mut pkts = raptorq_session(1000);
    for p in pkts.iter_mut() {
        if !is_fdt(p) {
            let fti = find_ext(p, 64).unwrap();
            p[fti + 11] = 0; // N (16 bits)
            p[fti + 12] = 0;
        }
    }
    // only object packets: the OTI comes from the EXT_FTI
    let objs: Vec<Vec<u8>> = pkts.into_iter().filter(|p| !is_fdt(p)).collect();
    push_all(&objs);
}

// F27c: RaptorQ EXT_FTI announcing a transfer length / symbol size whose block needs more than 56403 symbols
#[test]
fn f27c_raptorq_too_many_symbols_per_block() {
    let pkts = raptorq_session(1000);
    let p = pkts.iter().find(|p| !is_fdt(p)).unwrap();
    let fti = find_ext(p, 64).unwrap();
    let mut q = p.clone();
    // F = 1_000_000 (40 bits at fti+2..fti+7), T = 4, Z = 1  ->  250000 symbols in one block
    q[fti + 2] = 0x00;
    q[fti + 3] = 0x00;
    q[fti + 4] = 0x0F;
    q[fti + 5] = 0x42;
    q[fti + 6] = 0x40;
    q[fti + 8] = 0;
    q[fti + 9] = 4;
    q[fti + 10] = 1;
    push_all(&[q]);
}

// F28: Raptor (RFC 5053) object whose symbols are all truncated: the decoded symbols are shorter than the symbol size the
// dependency slices with
#[test]
fn f28_raptor_truncated_symbols() {
    let oti = flute::core::Oti::new_raptor(64, 8, 2, 1, 4).unwrap();
    let mut pkts = session(&oti, (0..1000usize).map(|i| i as u8).collect(), Default::default());
    for p in pkts.iter_mut() {
        if !is_fdt(p) {
            let n = p.len();
            p.truncate(n - 10);
        }
    }
    push_all(&pkts);
}
