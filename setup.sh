#!/bin/sh
# Build the framework offline from files on disk: the rustc_private driver, then warm the dependency graph of /repo
# (cargo check of the dependencies with the analysis flags) and the witness crate.
set -e
here=$(cd "$(dirname "$0")" && pwd)
export CARGO_NET_OFFLINE=true
cd "$here/sa/mirdump" && cargo build --offline --release
cd "$here" && PYTHONDONTWRITEBYTECODE=1 /usr/bin/python3 - <<'PY'
import sys
sys.path.insert(0, "sa")
from flan import facts, witness
facts.build_facts("/repo", "default")
witness.build("/repo")
print("setup ok")
PY
